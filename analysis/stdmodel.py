"""Term semantics for the std functions bumpalo's arena code calls (DESIGN.md 3.4).

A handler gets (interp, state, frame, block, arg_terms, callee_json, terminator_json) and returns
the result term, or None to fall back to "opaque call".  Handlers that write memory emit a `store`
event so rule packs see every mutation of a footer field, whichever API performed it."""
from .terms import *

TABLE = {}


def model(*paths):
    def deco(f):
        for p in paths:
            TABLE[p] = f
        return f
    return deco


def deref(I, st, a):
    """value behind reference/pointer term a"""
    if a[0] == 'addr':
        return I.read(st, a[1])
    return I.read(st, ('deref', a))


def target_lv(a):
    return a[1] if a[0] == 'addr' else ('deref', a)


def garg(c, i=0):
    g = c.get('gargs') or []
    return g[i] if i < len(g) else ''


def store(I, st, fid, bi, t, lv, val, via):
    I.event('store', st, fid, bi, t.get('span') if t else None, lv=lv, val=val, extra={'via': via})
    I.write(st, lv, val)


# ------------------------------------------------------------------ identity-on-address functions
@model('core::cell::Cell::<T>::new', 'core::ptr::non_null::NonNull::<T>::new_unchecked', 'core::ptr::non_null::NonNull::<T>::as_ptr',
       'core::ptr::non_null::NonNull::<T>::cast', 'core::ptr::mut_ptr::<impl *mut T>::cast', 'core::ptr::const_ptr::<impl *const T>::cast',
       'core::ptr::mut_ptr::<impl *mut T>::cast_const', 'core::ptr::const_ptr::<impl *const T>::cast_mut',
       'core::mem::manually_drop::ManuallyDrop::<T>::new', 'core::mem::manually_drop::ManuallyDrop::<T>::into_inner',
       'core::cell::Cell::<T>::into_inner', 'core::pin::Pin::<Ptr>::new_unchecked', 'core::pin::Pin::<Ptr>::into_inner_unchecked',
       'core::mem::maybe_uninit::MaybeUninit::<T>::new', 'core::convert::identity',
       '<core::ptr::non_null::NonNull<T> as core::convert::From<&mut T>>::from', '<core::ptr::non_null::NonNull<T> as core::convert::From<&T>>::from',
       '<T as core::convert::Into<U>>::into', '<T as core::convert::From<T>>::from',
       'core::str::<impl str>::as_bytes', 'core::str::converts::from_utf8_unchecked', 'core::str::converts::from_utf8_unchecked_mut',
       'core::str::<impl str>::as_bytes_mut',
       'core::ptr::non_null::NonNull::<[T]>::as_mut_ptr', 'core::ptr::non_null::NonNull::<[T]>::as_non_null_ptr')
def _ident(I, st, fid, bi, a, c, t):
    return a[0]


@model('core::slice::<impl [T]>::as_ptr', 'core::slice::<impl [T]>::as_mut_ptr', 'core::str::<impl str>::as_ptr', 'core::str::<impl str>::as_mut_ptr')
def _slice_as_ptr(I, st, fid, bi, a, c, t):
    # the data pointer of a slice built in this function; a slice that is only known as a value keeps its own term
    # (it stands for its data pointer wherever a pointer is expected)
    v = a[0]
    if v[0] == 'agg' and v[1] == 'slice':
        p = field_of(v, 'ptr')
        if p is not None:
            return p
    return v


@model('<core::mem::manually_drop::ManuallyDrop<T> as core::ops::deref::DerefMut>::deref_mut', '<core::mem::manually_drop::ManuallyDrop<T> as core::ops::deref::Deref>::deref')
def _md_deref(I, st, fid, bi, a, c, t):
    # ManuallyDrop<T> is a transparent wrapper: &mut ManuallyDrop<T> -> &mut T at the same address
    return a[0]


@model('core::ptr::non_null::NonNull::<T>::as_ref', 'core::ptr::non_null::NonNull::<T>::as_mut')
def _nn_as_ref(I, st, fid, bi, a, c, t):
    p = deref(I, st, a[0])
    return ('addr', ('deref', p)) if p[0] != 'addr' else p


@model('core::ptr::non_null::NonNull::<T>::new')
def _nn_new(I, st, fid, bi, a, c, t):
    return ('app', 'nonnull_new', a[0])


@model('core::ptr::non_null::NonNull::<T>::dangling')
def _nn_dangling(I, st, fid, bi, a, c, t):
    return ('app', 'dangling', garg(c))


@model('core::ptr::mut_ptr::<impl *mut T>::is_null', 'core::ptr::const_ptr::<impl *const T>::is_null')
def _is_null(I, st, fid, bi, a, c, t):
    return cmp('eq', C(0), a[0])


# ------------------------------------------------------------------ Cell
@model('core::cell::Cell::<T>::get')
def _cell_get(I, st, fid, bi, a, c, t):
    return deref(I, st, a[0])


@model('core::cell::Cell::<T>::set')
def _cell_set(I, st, fid, bi, a, c, t):
    store(I, st, fid, bi, t, target_lv(a[0]), a[1], 'Cell::set')
    return UNIT


@model('core::mem::replace')
def _mem_replace(I, st, fid, bi, a, c, t):
    # mem::replace(&mut place, v): read the old value, store the new one, return the old one
    lv = target_lv(a[0])
    old = I.read(st, lv)
    store(I, st, fid, bi, t, lv, a[1], 'mem::replace')
    return old


@model('core::mem::take')
def _mem_take(I, st, fid, bi, a, c, t):
    # mem::take(&mut place): the old value is returned, the place holds T::default() (an opaque value here)
    lv = target_lv(a[0])
    old = I.read(st, lv)
    store(I, st, fid, bi, t, lv, ('call', 'core::default::Default::default', (), next(I.counter)), 'mem::take')
    return old


@model('core::cell::Cell::<T>::replace')
def _cell_replace(I, st, fid, bi, a, c, t):
    lv = target_lv(a[0])
    old = I.read(st, lv)
    store(I, st, fid, bi, t, lv, a[1], 'Cell::replace')
    return old


@model('core::cell::Cell::<T>::as_ptr')
def _cell_as_ptr(I, st, fid, bi, a, c, t):
    return a[0]


# ------------------------------------------------------------------ raw memory
@model('core::ptr::write', 'core::ptr::mut_ptr::<impl *mut T>::write', 'core::ptr::non_null::NonNull::<T>::write')
def _ptr_write(I, st, fid, bi, a, c, t):
    store(I, st, fid, bi, t, target_lv(a[0]), a[1], 'ptr::write')
    return UNIT


@model('core::ptr::read', 'core::ptr::const_ptr::<impl *const T>::read', 'core::ptr::mut_ptr::<impl *mut T>::read', 'core::ptr::non_null::NonNull::<T>::read')
def _ptr_read(I, st, fid, bi, a, c, t):
    return deref(I, st, a[0])


def _bulk(kind):
    def h(I, st, fid, bi, a, c, t):
        esz = I.size_of(garg(c))
        I.event('copy', st, fid, bi, t.get('span') if t else None, callee=kind, args=a, extra={'elem': esz, 'elem_ty': garg(c)})
        I.havoc(st, kind)
        return UNIT
    return h


TABLE['core::ptr::copy'] = _bulk('copy')
TABLE['core::ptr::copy_nonoverlapping'] = _bulk('copy_nonoverlapping')
TABLE['core::ptr::write_bytes'] = _bulk('write_bytes')
TABLE['core::slice::<impl [T]>::fill'] = _bulk('fill')
TABLE['core::ptr::mut_ptr::<impl *mut T>::copy_to'] = _bulk('copy')
TABLE['core::ptr::const_ptr::<impl *const T>::copy_to'] = _bulk('copy')
def _bulk_from(kind):
    # dst.copy_from(src, n): same operation as ptr::copy(src, dst, n)
    inner = _bulk(kind)

    def h(I, st, fid, bi, a, c, t):
        return inner(I, st, fid, bi, [a[1], a[0]] + list(a[2:]), c, t)
    return h


TABLE['core::ptr::mut_ptr::<impl *mut T>::copy_from'] = _bulk_from('copy')
TABLE['core::ptr::mut_ptr::<impl *mut T>::copy_from_nonoverlapping'] = _bulk_from('copy_nonoverlapping')
TABLE['core::ptr::non_null::NonNull::<T>::copy_from'] = _bulk_from('copy')
TABLE['core::ptr::non_null::NonNull::<T>::copy_from_nonoverlapping'] = _bulk_from('copy_nonoverlapping')
TABLE['core::ptr::non_null::NonNull::<T>::copy_to'] = _bulk('copy')
TABLE['core::ptr::non_null::NonNull::<T>::copy_to_nonoverlapping'] = _bulk('copy_nonoverlapping')
TABLE['core::ptr::mut_ptr::<impl *mut T>::write_bytes'] = _bulk('write_bytes')
TABLE['core::ptr::mut_ptr::<impl *mut T>::copy_to_nonoverlapping'] = _bulk('copy_nonoverlapping')
TABLE['core::ptr::const_ptr::<impl *const T>::copy_to_nonoverlapping'] = _bulk('copy_nonoverlapping')


@model('core::ptr::drop_in_place', 'core::ptr::mut_ptr::<impl *mut T>::drop_in_place', 'core::ptr::non_null::NonNull::<T>::drop_in_place')
def _drop_in_place(I, st, fid, bi, a, c, t):
    I.event('drop_in_place', st, fid, bi, t.get('span') if t else None, args=a, extra={'ty': garg(c)})
    I.havoc(st, 'drop_in_place')
    return UNIT


@model('core::mem::forget')
def _forget(I, st, fid, bi, a, c, t):
    return UNIT


@model('core::mem::size_of')
def _size_of(I, st, fid, bi, a, c, t):
    return I.size_of(garg(c))


@model('core::mem::align_of')
def _align_of(I, st, fid, bi, a, c, t):
    return I.align_of(garg(c))


@model('core::mem::size_of_val')
def _size_of_val(I, st, fid, bi, a, c, t):
    return app('size', ('app', 'layout_for_value', a[0]))


# ------------------------------------------------------------------ pointer arithmetic
def _ptr_add(sign, wrapping=False):
    def h(I, st, fid, bi, a, c, t):
        esz = I.size_of(garg(c))
        off = app('mul', a[1], esz)
        if sign < 0 and wrapping:
            return app('wsub', a[0], off)
        return app('add' if sign > 0 else 'sub', a[0], off)
    return h


for _p in ('mut_ptr::<impl *mut T>', 'const_ptr::<impl *const T>'):
    TABLE['core::ptr::%s::add' % _p] = _ptr_add(1)
    TABLE['core::ptr::%s::wrapping_add' % _p] = _ptr_add(1)
    TABLE['core::ptr::%s::offset' % _p] = _ptr_add(1)
    TABLE['core::ptr::%s::wrapping_offset' % _p] = _ptr_add(1)
    TABLE['core::ptr::%s::sub' % _p] = _ptr_add(-1)
    TABLE['core::ptr::%s::wrapping_sub' % _p] = _ptr_add(-1, True)
TABLE['core::ptr::non_null::NonNull::<T>::add'] = _ptr_add(1)
TABLE['core::ptr::non_null::NonNull::<T>::sub'] = _ptr_add(-1)


@model('core::ptr::const_ptr::<impl *const T>::offset_from', 'core::ptr::mut_ptr::<impl *mut T>::offset_from',
       'core::ptr::const_ptr::<impl *const T>::offset_from_unsigned', 'core::ptr::mut_ptr::<impl *mut T>::offset_from_unsigned')
def _offset_from(I, st, fid, bi, a, c, t):
    esz = I.size_of(garg(c))
    d = app('sub', a[0], a[1])
    if esz == C(1):
        return d
    return app('div', d, esz)


@model('core::ptr::eq')
def _ptr_eq(I, st, fid, bi, a, c, t):
    return cmp('eq', a[0], a[1])


@model('<core::ptr::non_null::NonNull<T> as core::cmp::PartialEq>::eq')
def _nn_eq(I, st, fid, bi, a, c, t):
    return cmp('eq', deref(I, st, a[0]), deref(I, st, a[1]))


@model('<core::ptr::non_null::NonNull<T> as core::cmp::PartialEq>::ne', 'core::cmp::PartialEq::ne')
def _nn_ne(I, st, fid, bi, a, c, t):
    # `a != b` on pointers / NonNull: the provided `ne` is `!eq`
    p = c.get('path') or ''
    rp = (c.get('resolved') or {}).get('path') or p
    if 'NonNull' in rp or 'NonNull' in ' '.join(c.get('gargs') or []):
        return neg(cmp('eq', deref(I, st, a[0]), deref(I, st, a[1])))
    return None


@model('core::ptr::slice_from_raw_parts_mut', 'core::ptr::slice_from_raw_parts', 'core::slice::raw::from_raw_parts', 'core::slice::raw::from_raw_parts_mut',
       'core::ptr::non_null::NonNull::<[T]>::slice_from_raw_parts')
def _slice_parts(I, st, fid, bi, a, c, t):
    I.event('slice', st, fid, bi, t.get('span') if t else None, callee=c.get('path'), args=a, extra={'elem_ty': garg(c)})
    return agg('slice', '', (('ptr', a[0]), ('len', a[1])))


@model('core::slice::<impl [T]>::len', 'core::str::<impl str>::len', 'core::ptr::non_null::NonNull::<[T]>::len')
def _len(I, st, fid, bi, a, c, t):
    v = a[0]
    if v[0] == 'addr':
        v = I.read(st, v[1])
    if v[0] == 'agg' and v[1] == 'slice':
        return field_of(v, 'len')
    return app('len', a[0])


# ------------------------------------------------------------------ integers
def _bin(f):
    def h(I, st, fid, bi, a, c, t):
        return app(f, a[0], a[1])
    return h


for _ty in ('usize', 'isize', 'u8', 'u32', 'u64'):
    b = 'core::num::<impl %s>::' % _ty
    TABLE[b + 'checked_add'] = lambda I, st, fid, bi, a, c, t: ('app', 'checked_add', a[0], a[1])
    TABLE[b + 'checked_sub'] = lambda I, st, fid, bi, a, c, t: ('app', 'checked_sub', a[0], a[1])
    TABLE[b + 'checked_mul'] = lambda I, st, fid, bi, a, c, t: ('app', 'checked_mul', a[0], a[1])
    TABLE[b + 'wrapping_sub'] = _bin('wsub')
    TABLE[b + 'wrapping_add'] = _bin('wadd')
    TABLE[b + 'wrapping_mul'] = _bin('mul')
    TABLE[b + 'saturating_sub'] = _bin('satsub')
    TABLE[b + 'saturating_add'] = _bin('satadd')
    TABLE[b + 'saturating_mul'] = _bin('satmul')
    TABLE[b + 'abs_diff'] = _bin('abs_diff')
    TABLE[b + 'pow'] = _bin('pow')
    TABLE[b + 'next_power_of_two'] = lambda I, st, fid, bi, a, c, t: app('npot', a[0])
    TABLE[b + 'is_power_of_two'] = lambda I, st, fid, bi, a, c, t: (C(1 if (a[0][1] > 0 and a[0][1] & (a[0][1] - 1) == 0) else 0) if is_c(a[0]) else ('app', 'is_pow2', a[0]))
    TABLE[b + 'trailing_zeros'] = lambda I, st, fid, bi, a, c, t: ('app', 'ctz', a[0])
    TABLE[b + 'overflowing_add'] = lambda I, st, fid, bi, a, c, t: agg('tuple', '', (('0', app('add', a[0], a[1])), ('1', ('app', 'overflowed', 'add', a[0], a[1]))))


@model('core::cmp::Ord::max', 'core::cmp::max')
def _max(I, st, fid, bi, a, c, t):
    return app('max', a[0], a[1])


@model('core::cmp::Ord::min', 'core::cmp::min')
def _min(I, st, fid, bi, a, c, t):
    return app('min', a[0], a[1])


@model('core::cmp::impls::<impl core::cmp::Ord for usize>::cmp')
def _ord_cmp(I, st, fid, bi, a, c, t):
    return ('ordcmp', deref(I, st, a[0]), deref(I, st, a[1]))


def _pcmp(op):
    def h(I, st, fid, bi, a, c, t):
        return cmp(op, deref(I, st, a[0]), deref(I, st, a[1]))
    return h


for _ty in ('usize', 'u8', 'isize', 'u32'):
    TABLE['core::cmp::impls::<impl core::cmp::PartialOrd for %s>::lt' % _ty] = _pcmp('lt')
    TABLE['core::cmp::impls::<impl core::cmp::PartialOrd for %s>::le' % _ty] = _pcmp('le')
    TABLE['core::cmp::impls::<impl core::cmp::PartialOrd for %s>::gt' % _ty] = _pcmp('gt')
    TABLE['core::cmp::impls::<impl core::cmp::PartialOrd for %s>::ge' % _ty] = _pcmp('ge')
    TABLE['core::cmp::impls::<impl core::cmp::PartialEq for %s>::eq' % _ty] = _pcmp('eq')
    TABLE['core::cmp::impls::<impl core::cmp::PartialEq for %s>::ne' % _ty] = _pcmp('ne')


# ------------------------------------------------------------------ Layout
@model('core::alloc::layout::Layout::size')
def _l_size(I, st, fid, bi, a, c, t):
    return app('size', deref(I, st, a[0]) if a[0][0] == 'addr' else a[0])


@model('core::alloc::layout::Layout::align')
def _l_align(I, st, fid, bi, a, c, t):
    return app('align', deref(I, st, a[0]) if a[0][0] == 'addr' else a[0])


@model('core::alloc::layout::Layout::new')
def _l_new(I, st, fid, bi, a, c, t):
    ty = garg(c)
    return ('layout', I.size_of(ty), I.align_of(ty))


@model('core::alloc::layout::Layout::from_size_align')
def _l_fsa(I, st, fid, bi, a, c, t):
    return ('app', 'layout_result', a[0], a[1])


@model('core::alloc::layout::Layout::from_size_align_unchecked')
def _l_fsau(I, st, fid, bi, a, c, t):
    I.event('layout_unchecked', st, fid, bi, t.get('span') if t else None, args=a)
    return ('layout', a[0], a[1])


@model('core::alloc::layout::Layout::array')
def _l_array(I, st, fid, bi, a, c, t):
    ty = garg(c)
    return ('app', 'layout_array', a[0], ty)


@model('core::alloc::layout::Layout::for_value')
def _l_for_value(I, st, fid, bi, a, c, t):
    ty = garg(c)
    v = a[0]
    if ty.startswith('[') and ty.endswith(']'):
        ety = ty[1:-1]
        n = app('len', v)
        vv = I.read(st, v[1]) if v[0] == 'addr' else v
        if vv[0] == 'agg' and vv[1] == 'slice':
            n = field_of(vv, 'len')
        # the slice exists in memory, so len * size_of::<T>() <= isize::MAX
        st.facts.add(('nooverflow', 'mul', n, I.size_of(ety)))
        return ('layout', app('mul', n, I.size_of(ety)), I.align_of(ety))
    return ('layout', I.size_of(ty), I.align_of(ty))


# ------------------------------------------------------------------ Option / Result / Try
def _kind_of(c):
    s = (c.get('resolved') or {}).get('path') or ''
    g = garg(c)
    if 'option::Option' in s or 'option::Option' in g or g.startswith('std::option::Option'):
        return 'Option'
    return 'Result'


@model('core::ops::try_trait::Try::branch')
def _try_branch(I, st, fid, bi, a, c, t):
    return ('app', 'try_branch', a[0], _kind_of(c))


@model('core::ops::try_trait::FromResidual::from_residual')
def _from_residual(I, st, fid, bi, a, c, t):
    if _kind_of(c) == 'Option':
        return NONE
    r = a[0]
    e = ('app', 'err_of', r)
    if r[0] == 'app' and r[1] == 'residual':
        e = ('app', 'err_of', r[2])
    return err(e)


def _is_variant(I, st, v, names):
    """(known?, bool)"""
    sv = I.static_variant(v)
    if sv is not None:
        return True, sv in names
    for n in names:
        if ('is', v, n) in st.facts:
            return True, True
    return False, False


def _opt_cases(I, st, fid, bi, v, good, on_good, on_bad, tag):
    """case analysis on Option/Result value v: on_good(state, payload) / on_bad(state)"""
    bad = {'Some': 'None', 'Ok': 'Err'}[good]
    known, isgood = _is_variant(I, st, v, {good})
    if known and isgood:
        return on_good(st, I.payload(st, v))
    kb, isbad = _is_variant(I, st, v, {bad})
    if kb and isbad:
        return on_bad(st)
    fg = I.variant_facts(st, v, {good})
    fb = I.variant_facts(st, v, {bad})
    if ('false',) in fg:
        return on_bad(st)
    if ('false',) in fb:
        return on_good(st, I.payload(st, v))
    sa = st.copy()
    sa.facts |= fg
    va = on_good(sa, I.payload(sa, v))
    sb = st.copy()
    sb.facts |= fb
    vb = on_bad(sb)
    if va == ('never',):
        I.adopt(st, sb)
        return vb
    if vb == ('never',):
        I.adopt(st, sa)
        return va
    return I.join2(st, fid, bi, tag, (sa, va), (sb, vb))


def _callf(I, fid, bi, f, args):
    def run(s, *extra):
        return I.apply_callable(s, fid, bi, f, agg('tuple', '', tuple((str(i), x) for i, x in enumerate(list(args) + list(extra)))) if (args or extra) else UNIT)
    return run


@model('core::option::Option::<T>::map')
def _opt_map(I, st, fid, bi, a, c, t):
    return _opt_cases(I, st, fid, bi, a[0], 'Some', lambda s, p: some(_callf(I, fid, bi, a[1], [])(s, p)), lambda s: NONE, 'map')


@model('core::option::Option::<T>::filter')
def _opt_filter(I, st, fid, bi, a, c, t):
    # opt.filter(pred): Some(x) stays Some(x) exactly when pred(&x); the two outcomes carry the truth of the predicate
    def on_some(s, p):
        r = _callf(I, fid, bi, a[1], [])(s, p)
        if r == ('never',):
            return r
        if is_c(r):
            return some(p) if r[1] else NONE
        sa = s.copy()
        sa.facts |= I.truth(sa, r, True)
        sb = s.copy()
        sb.facts |= I.truth(sb, r, False)
        if ('false',) in sa.facts:
            I.adopt(s, sb)
            return NONE
        if ('false',) in sb.facts:
            I.adopt(s, sa)
            return some(p)
        return I.join2(s, fid, bi, 'filter', (sa, some(p)), (sb, NONE))
    return _opt_cases(I, st, fid, bi, a[0], 'Some', on_some, lambda s: NONE, 'filter_outer')


@model('core::option::Option::<T>::and_then')
def _opt_and_then(I, st, fid, bi, a, c, t):
    return _opt_cases(I, st, fid, bi, a[0], 'Some', lambda s, p: _callf(I, fid, bi, a[1], [])(s, p), lambda s: NONE, 'and_then')


@model('core::option::Option::<T>::unwrap_or')
def _opt_unwrap_or(I, st, fid, bi, a, c, t):
    return _opt_cases(I, st, fid, bi, a[0], 'Some', lambda s, p: p, lambda s: a[1], 'unwrap_or')


@model('core::option::Option::<T>::unwrap_or_else')
def _opt_unwrap_or_else(I, st, fid, bi, a, c, t):
    return _opt_cases(I, st, fid, bi, a[0], 'Some', lambda s, p: p, lambda s: _callf(I, fid, bi, a[1], [])(s), 'unwrap_or_else')


@model('core::option::Option::<Option<T>>::flatten', 'core::option::Option::<core::option::Option<T>>::flatten')
def _opt_flatten(I, st, fid, bi, a, c, t):
    return _opt_cases(I, st, fid, bi, a[0], 'Some', lambda s, p: p, lambda s: NONE, 'flatten')


@model('core::bool::<impl bool>::then_some')
def _bool_then_some(I, st, fid, bi, a, c, t):
    # the argument has been evaluated already (eagerly) by the caller: only the wrapping depends on the condition
    cond = a[0]
    if is_c(cond):
        return some(a[1]) if cond[1] else NONE
    sa, sb = st.copy(), st.copy()
    fa, fb = I.truth(st, cond, True), I.truth(st, cond, False)
    if ('false',) in fa:
        return NONE
    if ('false',) in fb:
        return some(a[1])
    sa.facts |= fa
    sb.facts |= fb
    return I.join2(st, fid, bi, 'then_some', (sa, some(a[1])), (sb, NONE))


@model('core::option::Option::<T>::ok_or')
def _opt_ok_or(I, st, fid, bi, a, c, t):
    return _opt_cases(I, st, fid, bi, a[0], 'Some', lambda s, p: ok(p), lambda s: err(a[1]), 'ok_or')


@model('core::option::Option::<T>::ok_or_else')
def _opt_ok_or_else(I, st, fid, bi, a, c, t):
    return _opt_cases(I, st, fid, bi, a[0], 'Some', lambda s, p: ok(p), lambda s: err(_callf(I, fid, bi, a[1], [])(s)), 'ok_or_else')


@model('core::option::Option::<T>::is_some')
def _opt_is_some(I, st, fid, bi, a, c, t):
    v = deref(I, st, a[0])
    sv = I.static_variant(v)
    if sv is not None:
        return TRUE if sv == 'Some' else FALSE
    return ('app', 'is_some', v)


@model('core::option::Option::<T>::is_none')
def _opt_is_none(I, st, fid, bi, a, c, t):
    v = deref(I, st, a[0])
    sv = I.static_variant(v)
    if sv is not None:
        return TRUE if sv == 'None' else FALSE
    return neg(('app', 'is_some', v))


def _panic_unless(good, what):
    def h(I, st, fid, bi, a, c, t):
        def bad(s):
            I.event('panic', s, fid, bi, t.get('span') if t else None, callee=what, args=a, extra={'exp': t.get('exp') if t else None})
            return ('never',)
        v = a[0]
        g = good
        if g == 'auto':
            g = 'Some' if _kind_of(c) == 'Option' else 'Ok'
        return _opt_cases(I, st, fid, bi, v, g, lambda s, p: p, bad, what)
    return h


TABLE['core::option::Option::<T>::expect'] = _panic_unless('Some', 'Option::expect')
TABLE['core::option::Option::<T>::unwrap'] = _panic_unless('Some', 'Option::unwrap')
TABLE['core::result::Result::<T, E>::expect'] = _panic_unless('Ok', 'Result::expect')
TABLE['core::result::Result::<T, E>::unwrap'] = _panic_unless('Ok', 'Result::unwrap')
TABLE['core::option::Option::<T>::unwrap_unchecked'] = lambda I, st, fid, bi, a, c, t: I.payload(st, a[0])


@model('core::result::Result::<T, E>::map')
def _res_map(I, st, fid, bi, a, c, t):
    return _opt_cases(I, st, fid, bi, a[0], 'Ok', lambda s, p: ok(_callf(I, fid, bi, a[1], [])(s, p)), lambda s: err(('app', 'err_of', a[0])), 'rmap')


@model('core::result::Result::<T, E>::map_err')
def _res_map_err(I, st, fid, bi, a, c, t):
    return _opt_cases(I, st, fid, bi, a[0], 'Ok', lambda s, p: ok(p), lambda s: err(_callf(I, fid, bi, a[1], [])(s, ('app', 'err_of', a[0]))), 'map_err')


@model('core::result::Result::<T, E>::ok')
def _res_ok(I, st, fid, bi, a, c, t):
    return _opt_cases(I, st, fid, bi, a[0], 'Ok', lambda s, p: some(p), lambda s: NONE, 'ok')


@model('core::result::Result::<T, E>::unwrap_or_else')
def _res_unwrap_or_else(I, st, fid, bi, a, c, t):
    return _opt_cases(I, st, fid, bi, a[0], 'Ok', lambda s, p: p, lambda s: _callf(I, fid, bi, a[1], [])(s, ('app', 'err_of', a[0])), 'r_unwrap_or_else')


@model('core::result::Result::<T, E>::and_then')
def _res_and_then(I, st, fid, bi, a, c, t):
    return _opt_cases(I, st, fid, bi, a[0], 'Ok', lambda s, p: _callf(I, fid, bi, a[1], [])(s, p), lambda s: err(('app', 'err_of', a[0])), 'r_and_then')


@model('core::option::Option::<T>::or_else')
def _opt_or_else(I, st, fid, bi, a, c, t):
    return _opt_cases(I, st, fid, bi, a[0], 'Some', lambda s, p: some(p), lambda s: _callf(I, fid, bi, a[1], [])(s), 'or_else')


@model('core::option::Option::<T>::or')
def _opt_or(I, st, fid, bi, a, c, t):
    return _opt_cases(I, st, fid, bi, a[0], 'Some', lambda s, p: some(p), lambda s: a[1], 'or')


@model('core::option::Option::<T>::map_or')
def _opt_map_or(I, st, fid, bi, a, c, t):
    return _opt_cases(I, st, fid, bi, a[0], 'Some', lambda s, p: _callf(I, fid, bi, a[2], [])(s, p), lambda s: a[1], 'map_or')


@model('core::option::Option::<T>::map_or_else')
def _opt_map_or_else(I, st, fid, bi, a, c, t):
    return _opt_cases(I, st, fid, bi, a[0], 'Some', lambda s, p: _callf(I, fid, bi, a[2], [])(s, p), lambda s: _callf(I, fid, bi, a[1], [])(s), 'map_or_else')


@model('core::result::Result::<T, E>::or_else')
def _res_or_else(I, st, fid, bi, a, c, t):
    return _opt_cases(I, st, fid, bi, a[0], 'Ok', lambda s, p: ok(p), lambda s: _callf(I, fid, bi, a[1], [])(s, ('app', 'err_of', a[0])), 'r_or_else')


@model('core::result::Result::<T, E>::map_or')
def _res_map_or(I, st, fid, bi, a, c, t):
    return _opt_cases(I, st, fid, bi, a[0], 'Ok', lambda s, p: _callf(I, fid, bi, a[2], [])(s, p), lambda s: a[1], 'r_map_or')


@model('core::result::Result::<T, E>::map_or_else')
def _res_map_or_else(I, st, fid, bi, a, c, t):
    return _opt_cases(I, st, fid, bi, a[0], 'Ok', lambda s, p: _callf(I, fid, bi, a[2], [])(s, p), lambda s: _callf(I, fid, bi, a[1], [])(s, ('app', 'err_of', a[0])), 'r_map_or_else')


@model('core::result::Result::<T, E>::unwrap_or')
def _res_unwrap_or(I, st, fid, bi, a, c, t):
    return _opt_cases(I, st, fid, bi, a[0], 'Ok', lambda s, p: p, lambda s: a[1], 'r_unwrap_or')


@model('core::result::Result::<T, E>::err')
def _res_err(I, st, fid, bi, a, c, t):
    return _opt_cases(I, st, fid, bi, a[0], 'Ok', lambda s, p: NONE, lambda s: some(('app', 'err_of', a[0])), 'r_err')


@model('core::result::Result::<T, E>::is_err')
def _res_is_err(I, st, fid, bi, a, c, t):
    v = deref(I, st, a[0])
    sv = I.static_variant(v)
    if sv is not None:
        return TRUE if sv == 'Err' else FALSE
    return neg(('app', 'is_ok', v))


@model('core::result::Result::<T, E>::is_ok')
def _res_is_ok(I, st, fid, bi, a, c, t):
    v = deref(I, st, a[0])
    sv = I.static_variant(v)
    if sv is not None:
        return TRUE if sv == 'Ok' else FALSE
    return ('app', 'is_ok', v)


# ------------------------------------------------------------------ global allocator
@model('alloc::alloc::alloc', 'alloc::alloc::alloc_zeroed')
def _galloc(I, st, fid, bi, a, c, t):
    n = next(I.counter)
    I.event('galloc', st, fid, bi, t.get('span') if t else None, callee=c.get('path'), args=a, extra={'id': n})
    return ('app', 'galloc', a[0], C(n))


@model('alloc::alloc::dealloc')
def _gdealloc(I, st, fid, bi, a, c, t):
    I.event('gdealloc', st, fid, bi, t.get('span') if t else None, callee=c.get('path'), args=a)
    I.havoc(st, 'dealloc')
    return UNIT


@model('alloc::alloc::realloc')
def _grealloc(I, st, fid, bi, a, c, t):
    I.event('grealloc', st, fid, bi, t.get('span') if t else None, callee=c.get('path'), args=a)
    I.havoc(st, 'realloc')
    return ('app', 'grealloc', a[0], a[1], a[2], C(next(I.counter)))


# ------------------------------------------------------------------ iterators used by the slow path
@model('core::iter::sources::from_fn::from_fn')
def _from_fn(I, st, fid, bi, a, c, t):
    return agg('iter:FromFn', '', (('f', a[0]),))


@model('core::iter::traits::iterator::Iterator::filter_map')
def _filter_map(I, st, fid, bi, a, c, t):
    return agg('iter:FilterMap', '', (('iter', a[0]), ('f', a[1])))


@model('<core::iter::adapters::filter_map::FilterMap<I, F> as core::iter::traits::iterator::Iterator>::next')
def _filter_map_next(I, st, fid, bi, a, c, t):
    it = deref(I, st, a[0])
    return _first_mapped(I, st, fid, bi, it, t)


@model('core::iter::traits::iterator::Iterator::find_map')
def _find_map(I, st, fid, bi, a, c, t):
    # iter.find_map(f) is iter.filter_map(f).next() (that is how FilterMap::next is implemented)
    src = deref(I, st, a[0]) if a[0][0] == 'addr' else a[0]
    if src[0] == 'agg' and src[1] == 'iter:FromFn':
        return _first_mapped(I, st, fid, bi, agg('iter:FilterMap', '', (('iter', src), ('f', a[1]))), t)
    return None


RANGE_NEXT = 'core::iter::range::<impl core::iter::traits::iterator::Iterator for core::ops::range::Range<A>>::next'


def _range_item(I, st, rng):
    """a generic item of `start..end` (one generic iteration of an internal-iteration method): a fresh value with
    start <= i < end, shaped like the payload of Range::next so that rules read it as the loop index"""
    n = next(I.counter)
    nx = ('call', RANGE_NEXT, (('opaque', n, 'range-iter'),), n)
    i = ('app', 'vproj', nx, 'Some', '0')
    st.facts |= {('le', field_of(rng, 'start'), i), ('lt', i, field_of(rng, 'end')), ('is', nx, 'Some')}
    return i


@model('core::iter::traits::iterator::Iterator::try_for_each')
def _try_for_each(I, st, fid, bi, a, c, t):
    # (start..end).try_for_each(f): one generic iteration; the whole call is Ok(()) or the Err of some iteration
    src = deref(I, st, a[0]) if a[0][0] == 'addr' else a[0]
    if src[0] == 'agg' and src[1].endswith('Range') and field_of(src, 'start') is not None and len(a) > 1:
        f = a[1]
        _havoc_captures(I, st, f)
        i = _range_item(I, st, src)
        rx = I.apply_callable(st, fid, bi, f, agg('tuple', '', (('0', i),)))
        if rx == ('never',):
            return rx
        return _opt_cases(I, st, fid, bi, rx, 'Ok', lambda s, p: ok(UNIT), lambda s: err(('app', 'err_of', rx)), 'try_for_each')
    if len(a) > 1 and a[1][0] == 'agg' and a[1][1].startswith('closure:') and not (a[0][0] == 'agg' and a[0][1] == 'iter:FromFn'):
        # any other iterator with a closure written in this crate: one generic iteration on an item of that iterator; the
        # whole call is Ok(()) (possibly after zero iterations) or the Err some iteration produced
        f = a[1]
        src = a[0]
        _havoc_captures(I, st, f)
        n = next(I.counter)
        nx = ('call', 'core::iter::traits::iterator::Iterator::next', (src,), n)
        item = ('app', 'vproj', nx, 'Some', '0')
        s2 = st.copy()
        s2.facts.add(('is', nx, 'Some'))
        I.event('call', s2, fid, bi, t.get('span') if t else None, callee='core::iter::traits::iterator::Iterator::next', args=[src], extra={'trait_path': 'core::iter::traits::iterator::Iterator::next', 'synthetic': True})
        I.res.events[-1].ret = nx
        rx = I.apply_callable(s2, fid, bi, f, agg('tuple', '', (('0', item),)))
        I.havoc(st, 'try_for_each')
        if rx == ('never',):
            return ok(UNIT)
        return _opt_cases(I, st, fid, bi, rx, 'Ok', lambda s, p: ok(UNIT), lambda s: err(('app', 'err_of', rx)), 'try_for_each_g')
    return None


@model('core::iter::traits::iterator::Iterator::for_each')
def _for_each(I, st, fid, bi, a, c, t):
    srcr = a[0]
    if srcr[0] == 'agg' and srcr[1].endswith('Range') and field_of(srcr, 'start') is not None and len(a) > 1:
        # (start..end).for_each(f): one generic iteration
        f = a[1]
        _havoc_captures(I, st, f)
        s2 = st.copy()
        i = _range_item(I, s2, srcr)
        rx = I.apply_callable(s2, fid, bi, f, agg('tuple', '', (('0', i),)))
        # zero iterations are possible: what the iteration learned does not hold afterwards, what it changed may have happened
        I.havoc(st, 'for_each')
        return UNIT if rx != ('never',) else UNIT
    # iter::from_fn(g).for_each(f): one generic iteration of `while let Some(x) = g() { f(x) }` (captured &mut state havocked first)
    src = a[0]
    if len(a) > 1 and not (src[0] == 'agg' and src[1] == 'iter:FromFn') and (a[1][0] == 'agg' and a[1][1].startswith('closure:')):
        # any other iterator with a closure written in this crate: one generic iteration on an item of that iterator
        # (zero iterations are possible too: the state afterwards is havocked)
        f = a[1]
        _havoc_captures(I, st, f)
        n = next(I.counter)
        nx = ('call', 'core::iter::traits::iterator::Iterator::next', (src,), n)
        item = ('app', 'vproj', nx, 'Some', '0')
        s2 = st.copy()
        s2.facts.add(('is', nx, 'Some'))
        I.event('call', s2, fid, bi, t.get('span') if t else None, callee='core::iter::traits::iterator::Iterator::next', args=[src], extra={'trait_path': 'core::iter::traits::iterator::Iterator::next', 'synthetic': True})
        I.res.events[-1].ret = nx
        I.apply_callable(s2, fid, bi, f, agg('tuple', '', (('0', item),)))
        I.havoc(st, 'for_each')
        return UNIT
    if src[0] == 'agg' and src[1] == 'iter:FromFn' and len(a) > 1:
        g = field_of(src, 'f')
        f = a[1]
        _havoc_captures(I, st, g)
        _havoc_captures(I, st, f)
        gx = I.apply_callable(st, fid, bi, g, UNIT)
        if gx == ('never',):
            return ('never',)
        _opt_cases(I, st, fid, bi, gx, 'Some', lambda s, p: I.apply_callable(s, fid, bi, f, agg('tuple', '', (('0', p),))), lambda s: UNIT, 'for_each')
        return UNIT
    return None


def _first_mapped(I, st, fid, bi, it, t):
    if it[0] == 'agg' and it[1] == 'iter:FilterMap':
        inner = field_of(it, 'iter')
        f = field_of(it, 'f')
        if inner[0] == 'agg' and inner[1] == 'iter:FromFn':
            g = field_of(inner, 'f')
            # generic iteration of the implicit loop: captured &mut state is havocked first
            _havoc_captures(I, st, g)
            _havoc_captures(I, st, f)
            gx = I.apply_callable(st, fid, bi, g, UNIT)
            if gx == ('never',):
                return ('never',)

            def on_some(s, p):
                fy = I.apply_callable(s, fid, bi, f, agg('tuple', '', (('0', p),)))
                return fy
            r = _opt_cases(I, st, fid, bi, gx, 'Some', on_some, lambda s: NONE, 'fm_next')
            # later iterations may produce a different element of the same shape: the result is
            # "None, or f(g()) of a generic iteration"
            return ('app', 'iter_any', r)
    return None


@model('<I as core::iter::traits::collect::IntoIterator>::into_iter')
def _into_iter_identity(I, st, fid, bi, a, c, t):
    # the blanket impl for iterators returns self; only the iterator values modelled here are forwarded (everything else keeps
    # its call term, which rules match on)
    if a and a[0][0] == 'agg' and a[0][1].startswith('iter:'):
        return a[0]
    return None


@model('<core::iter::sources::from_fn::FromFn<F> as core::iter::traits::iterator::Iterator>::next')
def _from_fn_next(I, st, fid, bi, a, c, t):
    # one step of an explicit loop over iter::from_fn(g): g() on whatever the captured state is by now
    it = deref(I, st, a[0])
    if it[0] == 'agg' and it[1] == 'iter:FromFn':
        g = field_of(it, 'f')
        _havoc_captures(I, st, g)
        return I.apply_callable(st, fid, bi, g, UNIT)
    return None


def _mutated_upvars(I, cid):
    """indices of upvars the closure body may assign through: `(*_1).k = ..`, or a temp that holds
    the captured `&mut` (MIR copies `(*_1).k` into a temp first) being written through / reborrowed
    mutably / passed to a call"""
    body = I.bodies.get(cid)
    out = set()
    if body is None:
        return out

    def upvar_of(place):
        if place['l'] != 1:
            return None
        for e in place['proj']:
            if e['k'] == 'field' and e.get('adt', '').startswith('closure:'):
                return e['i']
        return None
    alias = {}
    for blk in body['blocks']:
        for s in blk['stmts']:
            if s['k'] == 'assign' and not s['place']['proj']:
                rv = s['rv']
                src = None
                if rv['k'] == 'use' and rv['o'].get('k') in ('copy', 'move'):
                    src = rv['o']['place']
                elif rv['k'] in ('ref', 'rawptr'):
                    src = rv['place']
                if src is not None:
                    k = upvar_of(src)
                    if k is None and src['l'] in alias:
                        k = alias[src['l']]
                    if k is not None and ('&mut' in (s['place'].get('ty') or '') or '*mut' in (s['place'].get('ty') or '')):
                        alias[s['place']['l']] = k
    for blk in body['blocks']:
        for s in blk['stmts']:
            if s['k'] == 'assign':
                pl = s['place']
                k = upvar_of(pl)
                if k is not None and any(e['k'] == 'field' for e in pl['proj']):
                    out.add(k)
                if pl['l'] in alias and pl['proj'] and pl['proj'][0]['k'] == 'deref':
                    out.add(alias[pl['l']])
        t = blk['term']
        if t['k'] == 'call':
            k = upvar_of(t['dest'])
            if k is not None:
                out.add(k)
            if t['dest']['l'] in alias and t['dest']['proj']:
                out.add(alias[t['dest']['l']])
            for a in t['args']:
                if a.get('k') in ('copy', 'move') and a['place']['l'] in alias and not a['place']['proj']:
                    out.add(alias[a['place']['l']])
    return out


def _havoc_captures(I, st, clo):
    """the implicit loop of an iterator adaptor may run the closure any number of times before the
    iteration we analyse: locals it mutates through its captures become unknown"""
    from .termflow import root_of
    if clo[0] == 'agg' and clo[1].startswith('closure:'):
        mut = _mutated_upvars(I, clo[1][len('closure:'):])
        for name, up in clo[3]:
            idx = int(name[len('upvar'):]) if name.startswith('upvar') else -1
            if idx not in mut:
                continue
            if up[0] == 'addr':
                rr = root_of(up[1])
                if rr[0] == 'local' and (rr[1], rr[2]) in st.env:
                    st.env[(rr[1], rr[2])] = I.fresh('captured:_%s' % rr[2])


# ------------------------------------------------------------------ misc
@model('core::hint::unreachable_unchecked')
def _unreachable(I, st, fid, bi, a, c, t):
    return ('never',)


@model('core::hint::assert_unchecked')
def _assume(I, st, fid, bi, a, c, t):
    fs = I.truth(st, a[0], True)
    if ('false',) not in fs:
        st.facts |= fs
    return UNIT


@model('core::intrinsics::unlikely', 'core::intrinsics::likely', 'core::hint::black_box', 'core::hint::unlikely', 'core::hint::likely', 'core::hint::cold_path')
def _hint(I, st, fid, bi, a, c, t):
    return a[0] if a else UNIT


# ------------------------------------------------------------------ newer std idioms (strict-provenance helpers, lazy bool / Option
# combinators, inspect): the same semantics as the spellings above, added so that a modernised but equivalent body is read alike
for _p in ('core::ptr::from_ref', 'core::ptr::from_mut', 'core::ptr::non_null::NonNull::<T>::from_ref', 'core::ptr::non_null::NonNull::<T>::from_mut',
           'core::ptr::non_null::NonNull::<T>::addr', 'core::ptr::mut_ptr::<impl *mut T>::addr', 'core::ptr::const_ptr::<impl *const T>::addr',
           'core::num::nonzero::NonZero::<T>::get', 'core::num::nonzero::NonZero::<T>::new_unchecked',
           'core::ptr::mut_ptr::<impl *mut T>::expose_provenance', 'core::ptr::const_ptr::<impl *const T>::expose_provenance',
           'core::ptr::non_null::NonNull::<T>::expose_provenance',
           'core::ptr::mut_ptr::<impl *mut T>::cast_mut', 'core::ptr::const_ptr::<impl *const T>::cast_const',
           'core::ptr::non_null::NonNull::<T>::cast_mut', 'core::mem::maybe_uninit::MaybeUninit::<T>::assume_init',
           'core::mem::maybe_uninit::MaybeUninit::<T>::as_mut_ptr', 'core::mem::maybe_uninit::MaybeUninit::<T>::as_ptr'):
    TABLE.setdefault(_p, _ident)


def _byte_add(sign):
    def h(I, st, fid, bi, a, c, t):
        return app('add' if sign > 0 else 'sub', a[0], a[1])
    return h


for _p in ('core::ptr::mut_ptr::<impl *mut T>', 'core::ptr::const_ptr::<impl *const T>', 'core::ptr::non_null::NonNull::<T>'):
    TABLE.setdefault(_p + '::byte_add', _byte_add(1))
    TABLE.setdefault(_p + '::byte_sub', _byte_add(-1))
    TABLE.setdefault(_p + '::wrapping_byte_add', _byte_add(1))


@model('core::ptr::const_ptr::<impl *const T>::byte_offset_from', 'core::ptr::mut_ptr::<impl *mut T>::byte_offset_from',
       'core::ptr::const_ptr::<impl *const T>::byte_offset_from_unsigned', 'core::ptr::mut_ptr::<impl *mut T>::byte_offset_from_unsigned',
       'core::ptr::non_null::NonNull::<T>::byte_offset_from', 'core::ptr::non_null::NonNull::<T>::byte_offset_from_unsigned')
def _byte_offset_from(I, st, fid, bi, a, c, t):
    return app('sub', a[0], a[1])


@model('core::ptr::mut_ptr::<impl *mut T>::map_addr', 'core::ptr::const_ptr::<impl *const T>::map_addr', 'core::ptr::non_null::NonNull::<T>::map_addr')
def _map_addr(I, st, fid, bi, a, c, t):
    # p.map_addr(f) is the pointer with address f(p.addr()); addresses and pointers are one term here
    return _callf(I, fid, bi, a[1], [])(st, a[0])


@model('core::ptr::mut_ptr::<impl *mut T>::with_addr', 'core::ptr::const_ptr::<impl *const T>::with_addr', 'core::ptr::non_null::NonNull::<T>::with_addr')
def _with_addr(I, st, fid, bi, a, c, t):
    return a[1]


@model('core::bool::<impl bool>::then')
def _bool_then(I, st, fid, bi, a, c, t):
    # lazily: the closure runs only under the condition
    cond = a[0]
    run = _callf(I, fid, bi, a[1], [])
    if is_c(cond):
        return some(run(st)) if cond[1] else NONE
    fa, fb = I.truth(st, cond, True), I.truth(st, cond, False)
    if ('false',) in fa:
        return NONE
    if ('false',) in fb:
        return some(run(st))
    sa, sb = st.copy(), st.copy()
    sa.facts |= fa
    sb.facts |= fb
    va = run(sa)
    if va == ('never',):
        I.adopt(st, sb)
        return NONE
    return I.join2(st, fid, bi, 'then', (sa, some(va)), (sb, NONE))


@model('core::option::Option::<T>::is_some_and')
def _opt_is_some_and(I, st, fid, bi, a, c, t):
    return _opt_cases(I, st, fid, bi, a[0], 'Some', lambda s, p: _callf(I, fid, bi, a[1], [])(s, p), lambda s: FALSE, 'is_some_and')


@model('core::option::Option::<T>::is_none_or')
def _opt_is_none_or(I, st, fid, bi, a, c, t):
    return _opt_cases(I, st, fid, bi, a[0], 'Some', lambda s, p: _callf(I, fid, bi, a[1], [])(s, p), lambda s: TRUE, 'is_none_or')


@model('core::result::Result::<T, E>::is_ok_and')
def _res_is_ok_and(I, st, fid, bi, a, c, t):
    return _opt_cases(I, st, fid, bi, a[0], 'Ok', lambda s, p: _callf(I, fid, bi, a[1], [])(s, p), lambda s: FALSE, 'is_ok_and')


@model('core::option::Option::<&T>::copied', 'core::option::Option::<&T>::cloned', 'core::option::Option::<&mut T>::copied')
def _opt_copied(I, st, fid, bi, a, c, t):
    return _opt_cases(I, st, fid, bi, a[0], 'Some', lambda s, p: some(deref(I, s, p)), lambda s: NONE, 'copied')


@model('core::result::Result::<T, E>::inspect_err')
def _res_inspect_err(I, st, fid, bi, a, c, t):
    # the closure sees &e and runs for its effects on the Err arm only; the value passes through unchanged
    def on_err(s):
        I.write(s, ('tmp', 'inspect_err', tuple(fid), bi), I.payload(s, a[0]))
        r = _callf(I, fid, bi, a[1], [])(s, ('addr', ('tmp', 'inspect_err', tuple(fid), bi)))
        return ('never',) if r == ('never',) else a[0]
    return _opt_cases(I, st, fid, bi, a[0], 'Ok', lambda s, p: a[0], on_err, 'inspect_err')


@model('core::result::Result::<T, E>::inspect', 'core::option::Option::<T>::inspect')
def _res_inspect(I, st, fid, bi, a, c, t):
    good = 'Ok' if 'Result' in (c.get('path') or '') else 'Some'

    def on_good(s, p):
        I.write(s, ('tmp', 'inspect', tuple(fid), bi), p)
        r = _callf(I, fid, bi, a[1], [])(s, ('addr', ('tmp', 'inspect', tuple(fid), bi)))
        return ('never',) if r == ('never',) else a[0]
    return _opt_cases(I, st, fid, bi, a[0], good, on_good, lambda s: a[0], 'inspect')


@model('core::mem::maybe_uninit::MaybeUninit::<T>::write')
def _mu_write(I, st, fid, bi, a, c, t):
    # slot.write(v): a plain write of v into the slot (nothing is dropped), returns &mut to it
    store(I, st, fid, bi, t, target_lv(a[0]), a[1], 'ptr::write')
    return a[0]


@model('core::ptr::mut_ptr::<impl *mut T>::replace', 'core::ptr::replace', 'core::ptr::non_null::NonNull::<T>::replace')
def _ptr_replace(I, st, fid, bi, a, c, t):
    old = deref(I, st, a[0])
    store(I, st, fid, bi, t, target_lv(a[0]), a[1], 'ptr::write')
    return old


@model('core::cmp::Ordering::is_lt', 'core::cmp::Ordering::is_le', 'core::cmp::Ordering::is_gt', 'core::cmp::Ordering::is_ge', 'core::cmp::Ordering::is_eq', 'core::cmp::Ordering::is_ne')
def _ord_is(I, st, fid, bi, a, c, t):
    v = a[0]
    name = (c.get('path') or '').split('::')[-1]
    want = {'is_lt': {'Less'}, 'is_le': {'Less', 'Equal'}, 'is_gt': {'Greater'}, 'is_ge': {'Greater', 'Equal'}, 'is_eq': {'Equal'}, 'is_ne': {'Less', 'Greater'}}[name]
    if isinstance(v, tuple) and v and v[0] == 'ordcmp':
        # a.cmp(&b).is_lt() is a < b, and so on: the comparison itself
        op = {'is_lt': 'lt', 'is_le': 'le', 'is_gt': 'lt', 'is_ge': 'le', 'is_eq': 'eq', 'is_ne': 'eq'}[name]
        x, y = (v[2], v[1]) if name in ('is_gt', 'is_ge') else (v[1], v[2])
        r = cmp(op, x, y)
        return neg(r) if name == 'is_ne' else r
    sv = I.static_variant(v)
    if sv is not None:
        return TRUE if sv in want else FALSE
    for n in ('Less', 'Equal', 'Greater'):
        if ('is', v, n) in st.facts:
            return TRUE if n in want else FALSE
    return None


def _enum_as_ref(good, bad, adt):
    def h(I, st, fid, bi, a, c, t):
        # &mut Result<T, E> -> Result<&mut T, &mut E> (same for Option): references to the payload in place
        lv = target_lv(a[0])
        v = deref(I, st, a[0])
        wrap_good = ok if good == 'Ok' else some
        return _opt_cases(I, st, fid, bi, v, good,
                          lambda s, p: wrap_good(('addr', ('fld', ('variant', lv, good), adt + '.0'))),
                          (lambda s: err(('addr', ('fld', ('variant', lv, bad), adt + '.0')))) if good == 'Ok' else (lambda s: NONE), 'as_ref')
    return h


for _n in ('as_ref', 'as_mut'):
    TABLE.setdefault('core::result::Result::<T, E>::' + _n, _enum_as_ref('Ok', 'Err', 'core::result::Result'))
    TABLE.setdefault('core::option::Option::<T>::' + _n, _enum_as_ref('Some', 'None', 'core::option::Option'))
