#!/bin/bash
# Build the fact extractor (rustc_private driver) offline. Idempotent.
set -e
cd "$(dirname "$0")/driver"
export CARGO_NET_OFFLINE=true
cargo build --offline 2>&1 | tail -3
test -x target/debug/bumpscan
echo "setup ok"
